"""Per-property configuration of bin/check: which Props file holds the theorems, which
implementation suites validate the model components those theorems depend on, and which
extracted Spec predicates (oracles) are evaluated on the implementation's own outputs."""

TRUSTED_BASE = [
    'Coq 8.16.1 kernel (coqc; vm_compute used for finite sweeps and witnesses; native_compute not used)',
    'no axioms declared by the development; Print Assumptions under every property theorem is expected to be "Closed under the global context"',
    'translator /verif/tools/gen (go/ast): copies tables, constants and strings from /repo into coq/Gen/Generated.v on every run',
    'extraction: ExtrOcamlBasic only (bool, option, unit, list, prod, sumbool, sumor as OCaml types; andb/orb inlined); N, Z, positive, nat stay Coq inductives; OCaml 4.13.1; driver ocaml/modelrun.ml (text <-> sx only)',
    'correspondence harness /verif/harness (Go, -tags verif) linked against /repo working tree; strength bounded by the generators (input distribution printed in this file)',
    'a sample of every run\'s cases is re-evaluated inside Coq with vm_compute and compared with the extracted model',
]

LOOP_RULE = 'histories of 5-40 events (plus a quiescing tail) through the PRODUCTION event loop on socketpairs with a real poller and task queue: 1-3 clients, 2-3 backend nodes (layouts: full coverage / an unowned slot / an undialable node / two nodes; 20% of the layouts allow two connections per node and keep to single-key requests; optional password handshake; optional 15 ms request timeout; optional 60- or 100-byte limit); clients send 1-3 requests per read (single-key incl. EVAL/EVALSHA and other table commands in mixed case, AUTH with right/wrong/unexpected password, MGET/DEL/MSET over several slots, PING, unknown command, wrong arity, QUIT, keys that make the fake backend answer an error / MOVED to a known node / MOVED to an unknown node / ASK, also inside split MGET/DEL/MSET), sometimes cut inside a request; task rounds; backends answer 1-3 pending fragments, sometimes with the reply cut in two reads (the second part at once, or held back until the next answer of that node so that other events fall between the halves); MGET keys with the marker big (30 bytes more in the value: the assembled reply exceeds a 60/100-byte limit that each fragment respects); client closes; backend closes; timeout scans after a real sleep; ticker rounds that send the CLUSTER NODES probe on a random node (dialling if needed); plus 60 (quick) topology histories on four nodes in which the ticker applies topologies adopted from CLUSTER NODES texts by the production topology code while requests are in flight (slot migration, removal of a node, demotion of a master to a replica, promotion); plus deep-backlog histories (one slow request at the head, 1025-1224 completed replies behind it). Nondeterminism of the Go code (map iteration order within one request, dial order) is recorded from the run and given to the model as oracle. distinct = distinct history; non-trivial = history contains at least one of the tagged situations (input_distribution shows how often each occurred)'

PROPS = {
    'C05': {
        'props': 'Props/C05.v',
        'suites': [
            {'name': 'c05', 'oracles': {'hash': 'o_c05'}, 'trivial_tags': ['nobrace'], 'vm_sample': 60},
        ],
        'rule': 'exhaustive strings over {"{","}","a"} up to length 7 (quick) / 9 (thorough), every 1-byte key, every byte at both '
                'positions of a 2-byte key, random binary keys (length 0-300, brace density 0-50%); distinct = distinct key; '
                'non-trivial = key contains at least one brace (tag other than nobrace) or comes from the byte sweeps',
        'explanation': 'Theorem C05_full: for all byte strings, model Hash = spec key_slot (bit-serial CRC16/XMODEM of the hash tag, mod 16384); '
                       'C05_table re-proved against the table literal copied from crc16.go on this run; the model is tied to hashkit.Hash by '
                       'differential run and the spec is evaluated directly on hashkit.Hash outputs.',
        'assumptions': ['keys are byte strings (each element < 256)', 'Go strings.Index / uint32 shift semantics as transcribed in Model/Crc16.v'],
    },
    'C06': {
        'props': 'Props/C06.v',
        'suites': [{'name': 'cdecode', 'oracles': {'cdecode': 'o_reqs'}, 'trivial_tags': ['out-wait'], 'vm_sample': 40}, {'name': 'loop', 'oracles': {'loop': 'o_loop'}, 'trivial_tags': ['plain'], 'vm_sample': 6, 'sigs': ['request-delivered-to-a-node-that-does-not-own-the-slot', 'backend-received-bytes-that-are-not-requests', 'reply-does-not-belong-to-the-request-at-its-position', 'event-loop-stopped']}],
        'rule': 'client decoder on generated requests (every command x letter case x argument counts; MGET/DEL/MSET with forced slot '
                'collisions via shared hash tags, duplicates, empty and binary keys/values, lengths straddling digit-count boundaries; '
                'pipelined, truncated and mutated variants); distinct = distinct (limit, bytes); non-trivial = not a plain wait outcome',
        'explanation': 'Theorems: wf_split1/wf_split2 for ANY slot function and key list (one canonical fragment per distinct slot holding exactly '
                       'the items of that slot in order; partition corollary), and end to end through the decoder for MGET/DEL/MSET. The Go splitter '
                       'is tied to the model differentially and the split spec is evaluated on the Go fragments. The run evaluates decode_fast (linear time), '
                       'proved equal to decode for every input (C06_evaluated_decoder_is_the_model), so a request with more keys than slots runs in every tier.',
        'assumptions': ['argument lengths and counts below 10^18 (an int64 length cannot exceed it)', 'Go map iteration order is irrelevant: fragments compared as a slot-sorted list'],
    },
    'C08': {
        'props': 'Props/C08.v',
        'suites': [{'name': 'cfeed', 'oracles': {'cfeed': 'o_feed'}, 'trivial_tags': [], 'vm_sample': 15}, {'name': 'cdecode', 'oracles': {'cdecode': 'o_reqs'}, 'trivial_tags': ['out-wait'], 'vm_sample': 40}, {'name': 'pressure', 'oracles': {'loopfinal': 'o_loop'}, 'trivial_tags': ['plain'], 'vm_sample': 3, 'sigs': ['request-never-answered-and-connection-left-open', 'reply-does-not-belong-to-the-request-at-its-position', 'more-replies-than-requests', 'stray-bytes-after-the-last-reply', 'backend-received-bytes-that-are-not-requests', 'event-loop-stopped']}],
        'rule': 'cfeed: pipelines of 1-8 generated requests (6% mutated, 15% truncated) cut into one chunk / single bytes / two cuts / random '
                'chunks, an exhaustive two-cut sweep of a 3-request pipeline, a 200 KB request crossing the 64 KiB read buffer - each run '
                'through the production path unix.Read -> eventloop.cread -> conn.Peek/Discard -> Decode -> inbound ring buffer on a socketpair; '
                'cdecode: as C06. distinct = distinct chunk list',
        'explanation': 'Theorems: for EVERY byte stream and segmentation the read loop yields what extraction from the concatenation yields '
                       '(C08_all_streams); for every well-formed pipeline exactly the encoded requests (C08_full); a proper prefix waits '
                       '(C08_prefix_waits). The inbound buffer is an abstract byte list in the model (that the ring buffer is one is C19); the '
                       'production read path incl. the real ring buffer is run against the model on every check.',
        'assumptions': ['inbound leftover behaves as a FIFO byte list (property C19)', 'lengths below 10^18'],
    },
    'C12': {
        'props': 'Props/C12.v',
        'suites': [{'name': 'cdecode', 'oracles': {'cdecode': 'o_reqs'}, 'trivial_tags': ['out-wait'], 'vm_sample': 40}, {'name': 'cfeed', 'oracles': {'cfeed': 'o_feed'}, 'trivial_tags': [], 'vm_sample': 15},
                   {'name': 'pressure', 'oracles': {'loopfinal': 'o_loop'}, 'trivial_tags': ['plain'], 'vm_sample': 3, 'sigs': ['event-loop-stopped', 'request-never-answered-and-connection-left-open']}, {'name': 'loop', 'oracles': {'loop': 'o_loop'}, 'trivial_tags': ['plain'], 'vm_sample': 6, 'sigs': ['backend-received-bytes-that-are-not-requests', 'event-loop-stopped', 'request-never-answered-and-connection-left-open']}],
        'rule': 'pressure: 60 (quick) histories through the production loop with minimal socket send buffers and peers that read late - a client that has read nothing sends garbage and must be closed without stalling the loop; as C06/C08, with the hostile stream: counts/lengths 0, -1, -0, +1, 00, 01, 2^31, 2^63-1, 2^63, 2^64+k, 20+ digits, empty; wrong type '
                'markers; dropped CR/LF; truncations; inline commands; random bytes; bit flips; leading blank lines - alone and followed by valid requests',
        'explanation': 'Theorems (decoder side): the decoder never yields the nil result or diverges on any input (C12_decoder_total, '
                       'C12_read_loop_total); every fragment built from ANY accepted input is a request of the strict Redis grammar '
                       '(C12_forwarded_wellformed) and what was accepted is itself canonical (C12_accepted_is_canonical). The isolation of other '
                       'connections is covered with the event-loop model (C03/C01 checks).',
        'assumptions': ['memory exhaustion by a huge declared length that never arrives is outside the model', 'the strict grammar is a subset of what Redis accepts (argued from processMultibulkBuffer/string2ll)'],
    },
    'C17': {
        'props': 'Props/C17.v',
        'suites': [{'name': 'cdecode', 'oracles': {'cdecode': 'o_reqs'}, 'trivial_tags': ['out-wait'], 'vm_sample': 40}, {'name': 'loop', 'oracles': {'loop': 'o_loop'}, 'trivial_tags': ['plain'], 'vm_sample': 6, 'sigs': ['backend-received-bytes-that-are-not-requests', 'reply-does-not-belong-to-the-request-at-its-position', 'more-replies-than-requests', 'reply-larger-than-the-limit-delivered', 'event-loop-stopped']}],
        'rule': 'as C06; includes all 104 table names x 3 letter cases x 9 argument counts, 22 unsupported/near-miss names, and limits set to '
                'the request size -2..+2, alone and inside a pipeline',
        'explanation': 'Data theorems re-proved against the tables translated from commands.go and docs/command.md on this run (supported set = documented '
                       'Yes rows + auth; three tables agree; case-insensitive lookup), and the logic theorem C17_classify: every canonical request, '
                       'whatever follows it, consumes exactly its own bytes and is classified by the spec (too large iff its OWN size exceeds the limit).',
        'assumptions': ['reply-size limit and "nothing is forwarded for a rejected request" are covered by the server-codec / event-loop checks'],
    },
    'C07': {
        'props': 'Props/C07.v',
        'suites': [{'name': 'merge', 'oracles': {'merge': 'o_merge'}, 'trivial_tags': ['frags-1'], 'vm_sample': 25}, {'name': 'sdecode', 'trivial_tags': ['out-wait'], 'vm_sample': 40}, {'name': 'loop', 'oracles': {'loop': 'o_loop'}, 'trivial_tags': ['plain'], 'vm_sample': 6, 'sigs': ['reply-does-not-belong-to-the-request-at-its-position', 'more-replies-than-requests', 'stray-bytes-after-the-last-reply', 'request-never-answered-and-connection-left-open', 'event-loop-stopped']}],
        'rule': 'merge: one client request (MGET/DEL/MSET with shared hash tags, duplicates, empty/binary keys; some single-key) through the production '
                'event loop on socketpairs with 4 backend nodes x up to 16 connections; the harness parses every fragment with a strict parser, answers '
                'from a random store (absent keys, empty values, values with CR/LF) and releases the answers in EVERY order (<= 3 fragments quick, <= 4 '
                'thorough) or in random orders; 35% of plans inject backend errors. distinct = distinct (request, release order); non-trivial = more than one fragment',
        'explanation': 'Theorems: for any slot function, key list, store and ANY permutation of the fragment replies the merged reply is the per-key array in request '
                       'order / the sum / OK-iff-all-OK, nothing is delivered before the last fragment answered, and the result is independent of the order. '
                       'Model tied to conn.sread + SRespCodec by differential run through the real loop; MergeSpec evaluated on the client byte stream.',
        'assumptions': ['backend replies are well-formed RESP2 with one element per requested key (a shorter MGET array is an index panic in the Go code: environment assumption wf_backend)',
                        'fragment replies and the merged reply fit the size limit (otherwise the size error is the specified outcome)'],
    },
    'C11': {
        'props': 'Props/C11.v',
        'suites': [{'name': 'merge', 'oracles': {'merge': 'o_merge'}, 'trivial_tags': ['frags-1'], 'vm_sample': 25}, {'name': 'sdecode', 'trivial_tags': ['out-wait'], 'vm_sample': 40}, {'name': 'loop', 'oracles': {'loop': 'o_loop'}, 'trivial_tags': ['plain'], 'vm_sample': 6, 'sigs': ['reply-does-not-belong-to-the-request-at-its-position', 'more-replies-than-requests', 'redirect-error-leaked-to-client', 'request-never-answered-and-connection-left-open', 'event-loop-stopped']}],
        'rule': 'as C07; error replies drawn from ERR, WRONGTYPE, LOADING, CLUSTERDOWN, TRYAGAIN, CROSSSLOT, READONLY, MASTERDOWN, NOSCRIPT, BUSY, MISCONF, OOM and degenerate "-ERR", "-E" on any subset of fragments',
        'explanation': 'Theorems: an error (any non-array for MGET, any non-integer for DEL, any non-OK for MSET) on any fragment completes the request with an error reply, exactly once, '
                       'later replies are discarded; single-key errors are handed on verbatim; no step is Crash/Hang. Two genuine defects found and repaired (DEL summed -1; MGET panicked).',
        'assumptions': ['redirect (MOVED/ASK) and auth errors are handled by C13 / shutdown path, not here'],
    },
    'C02': {
        'props': 'Props/C02.v',
        'suites': [{'name': 'cdecode', 'oracles': {'cdecode': 'o_reqs'}, 'trivial_tags': ['out-wait'], 'vm_sample': 40}, {'name': 'sdecode', 'trivial_tags': ['out-wait'], 'vm_sample': 40}, {'name': 'merge', 'oracles': {'merge': 'o_merge'}, 'trivial_tags': ['frags-1'], 'vm_sample': 25},
                   {'name': 'loop', 'oracles': {'loop': 'o_loop'}, 'trivial_tags': ['plain'], 'vm_sample': 6, 'sigs': ['backend-received-bytes-that-are-not-requests', 'reply-does-not-belong-to-the-request-at-its-position', 'event-loop-stopped']}, {'name': 'pressure', 'oracles': {'loopfinal': 'o_loop'}, 'trivial_tags': ['plain'], 'vm_sample': 3, 'sigs': ['reply-does-not-belong-to-the-request-at-its-position', 'backend-received-bytes-that-are-not-requests', 'stray-bytes-after-the-last-reply', 'more-replies-than-requests', 'event-loop-stopped']}],
        'rule': 'cdecode: every single-key command with empty/binary/CRLF-bearing arguments; sdecode: random RESP2 values to depth 4 (status, error, integer, bulk incl. 9/10/99/100/999/1000-byte, '
                'null, arrays, null array), pipelined, every kind of prefix, mutated; handshake decoder on all splits of one and two +OK; merge: single-key round trips through the real loop',
        'explanation': 'Theorems: the single fragment is the client request with only the command name lower-cased (C02_request); every well-formed RESP2 value is framed exactly whatever follows '
                       '(C02_reply_framed, by induction on the value); the reply is handed on verbatim within the limit (C02_reply_verbatim); handshake +OK replies are swallowed exactly, also when split. '
                       'The partial-write / slow-reader conservation is covered by the buffer model (C19).',
        'assumptions': ['kernel/TCP deliver what was written', 'AUTH and READONLY both succeed on a backend connection (wf_backend handshake assumption)'],
    },
    'C04': {
        'props': 'Props/C04.v',
        'suites': [{'name': 'route', 'oracles': {'route': 'o_route'}, 'trivial_tags': ['live-0'], 'vm_sample': 40},
                   {'name': 'cluster', 'oracles': {'cluster': 'o_cluster'}, 'trivial_tags': ['nodes-1', 'nodes-2'], 'vm_sample': 10, 'sigs': ['pool-set-or-pool-role-differs-from-latest-valid-description', 'slot-owner-inconsistent-with-adopted-topology', 'topology-after-ticker-differs-from-latest-valid-description']},
                   {'name': 'loop', 'oracles': {'loop': 'o_loop'}, 'trivial_tags': ['plain'], 'vm_sample': 6, 'sigs': ['request-delivered-to-a-node-that-does-not-own-the-slot', 'connection-to-removed-node-left-open', 'event-loop-stopped']},
                   {'name': 'replicas', 'oracles': {'loop': 'o_loop'}, 'trivial_tags': [], 'vm_sample': 4,
                    'sigs': ['request-delivered-to-a-node-that-does-not-own-the-slot', 'replica-connection-used-without-readonly', 'reply-does-not-belong-to-the-request-at-its-position', 'request-never-answered-and-connection-left-open', 'more-replies-than-requests', 'backend-received-bytes-that-are-not-requests', 'event-loop-stopped']}],
        'rule': 'replicas: 120 (quick) event-loop histories with replica reads ENABLED (three masters with 0-2 replicas each, optional password) run against the event-loop model - which routes with the route function of Model/Route.v, the random number being reconstructed from the node the run is seen to choose (event EChoices, read from the write queues before any write round) - and judged by the specification oracle: requests reach the master or - reads only - a replica of the owning set, READONLY precedes the first request on a replica connection; loop: the event-loop histories of C01 (every request a fake node receives is checked against the slot table); listenServer.route for every command type of the table on fixed 0/2/3-replica sets (4 random seeds each, replica reads on/off) and on random sets of 0-4 replicas '
                'with random pool presence / ban flag / ban-lift time on both sides of now; rand.Intn made reproducible by rand.Seed and its value for every possible argument passed to '
                'the model as oracle; OnSOpened for passwords of several lengths x master/replica. distinct = distinct (set, type, seed); non-trivial = at least one live replica',
        'explanation': 'Theorems: the node chosen is the master or a live replica of the same set, for every set, type, setting and random value within Intn\'s contract; writes, cursor scans, scripts and '
                       'everything when replica reads are off go to the master; data theorems over the command table (only read-only commands precede the write marker); handshake bytes are '
                       'canonical AUTH/READONLY requests. At the level of the loop: a fragment sits on a connection to the node that the routing plan of its request names (RInv), and a plan names the master of the owning set or - for reads that may go to a replica, with replica reads on - one of its replicas with a pool (C04_plan_by_role); with replica reads off the plan is the slot table (C04_plan_is_the_slot_table).',
        'assumptions': ['the slot table lookup (Slots2Node) and pool map are inputs of route; their construction is C14', 'rand.Intn(n) returns a value in [0,n)'],
    },
    'C20': {
        'props': 'Props/C20.v',
        'suites': [{'name': 'route', 'oracles': {'route': 'o_route'}, 'trivial_tags': ['live-0'], 'vm_sample': 40},
                   {'name': 'cluster', 'oracles': {'cluster': 'o_cluster'}, 'trivial_tags': ['nodes-1', 'nodes-2'], 'vm_sample': 10, 'sigs': ['topology-after-ticker-differs-from-latest-valid-description']}],
        'rule': 'as C04; the oracle checks that the node chosen for a read is exactly the k-th healthy replica for the recorded k = rand.Intn(|healthy|)',
        'explanation': 'Theorems: the choice is the k-th live replica (identity on the live list, hence every live replica is reachable and the map is injective); writes unaffected. '
                       'One genuine defect repaired (choice made inside the loop: only the first healthy replica ever served reads). Uniformity of math/rand is trusted.',
        'assumptions': ['uniformity of math/rand', 'the 5-second health monitor goroutine is outside the model (only its effect on the ban flags is state)'],
    },
    'C18': {
        'props': 'Props/C18.v',
        'suites': [{'name': 'authip', 'oracles': {'authip': 'o_authip'}, 'trivial_tags': ['adds-only'], 'vm_sample': 20}],
        'rule': 'histories of 1-10 whitelist file versions (adds, removals, enable/disable toggles, duplicates, empty list) written as YAML and loaded through the production parse path; '
                'admission of 8 probe addresses decided by the production OnCOpened on a stepper connection (open and silent vs closed); plus the REAL fsnotify watcher: edits applied in place, '
                'by rename-over and by remove+create, admitted set polled up to 3 s. distinct = distinct history; non-trivial = history contains a removal or runs through the watcher',
        'explanation': 'Theorems: after any history of loaded versions an address is admitted iff the last version is disabled or lists it (removals included); admission is decided on the ip part of ip:port; '
                       'Write/Create/Rename events of the file reload. Two genuine defects repaired (removed addresses stayed admitted; rewrite-by-rename never reloaded). '
                       'That a rejected connection is closed before any read is the event-loop open/handleAction path, exercised here through the stepper.',
        'assumptions': ['YAML parsing and inotify/fsnotify semantics are outside the model (the watcher is exercised for real in the suite)', 'IPv4 client addresses', 'the unsynchronised enable flag (data race between watcher goroutine and event loop) is outside the model'],
    },
    'C14': {
        'props': 'Props/C14.v',
        'suites': [{'name': 'cluster', 'oracles': {'cluster': 'o_cluster'}, 'trivial_tags': ['nodes-1', 'nodes-2'], 'vm_sample': 25},
                   {'name': 'info', 'oracles': {'info': 'o_info'}, 'trivial_tags': ['empty', 'error-text'], 'vm_sample': 20}],
        'rule': 'cparse: generated CLUSTER NODES texts (1-4 masters x 0-2 replicas; flags myself/master/slave/fail/fail?/handshake/noaddr/empty; link states; truncated column counts; '
                'slot shapes single, range, two ranges, migration markers, out-of-range, reversed, junk; addresses with/without @cport, missing port, hostnames, +port, IPv6) with a scripted INFO oracle '
                'and a random subset of already-known addresses, through ClusterNodes.parse. cluster: histories of 2-8 events (usable texts, re-parented replica, changed topology, unusable replies '
                '+OK / nil / error / no LF / short bulk / 200 KB bulk / empty bulk, ticker rounds) through the PRODUCTION refresh goroutine and eventloop.ticker. distinct = distinct text/history',
        'explanation': 'Theorems: the loop is total for every history and never ends; unusable replies and texts with fewer than three usable nodes leave the state untouched and never block a later '
                       'adoption; the node filter rules; slot numbers in range; the slot table and replica sets are what the adopted node list describes (owner claims the slot; unique under disjoint '
                       'claims; unclaimed slots unowned); pools equal the adopted servers. Four genuine defects repaired (loop ended on any unusable reply; short replies panicked the goroutine; '
                       're-parented replica not noticed; slot >= 16384 crashed the ticker). Convergence "within a few seconds" (1 s ticker cadence) is runtime behaviour outside the model.',
        'assumptions': ['the unsynchronised sharing of Replicasets/serverChanged between the refresh goroutine and the event loop (a data race) is outside the model',
                        'which pooled connection carries the probe and the 1-second cadence are outside the model',
                        'fingerprint equality is treated as "same topology" (string formatting injective for addresses without # and ,)'],
    },
    'C01': {
        'props': 'Props/C01.v',
        'suites': [{'name': 'loop', 'oracles': {'loop': 'o_loop'}, 'trivial_tags': ['plain'], 'vm_sample': 12, 'sigs': ['more-replies-than-requests', 'reply-does-not-belong-to-the-request-at-its-position', 'stray-bytes-after-the-last-reply', 'request-never-answered-and-connection-left-open', 'event-loop-stopped']}, {'name': 'pressure', 'oracles': {'loopfinal': 'o_loop'}, 'trivial_tags': ['plain'], 'vm_sample': 3, 'sigs': ['reply-does-not-belong-to-the-request-at-its-position', 'more-replies-than-requests', 'stray-bytes-after-the-last-reply', 'request-never-answered-and-connection-left-open', 'event-loop-stopped']}],
        'rule': LOOP_RULE,
        'explanation': 'Theorem C01_replies_in_order, by an invariant proved inductive over every event of the event-loop model (CInvG): for every history the bytes a client has received are the replies of its requests 0..k-1 in order, one each, nothing else. Three genuine defects repaired (local replies overtook queued ones; QUIT dropped outstanding replies; flush only when the whole queue was done). The model is tied to the production loop by replaying recorded histories; the session oracle checks every client stream against the expected reply of each request by position.',
        'assumptions': ["backend replies are well-formed RESP2 and one per request written (wf_backend); a malformed or unsolicited backend reply makes the production loop spin (RHang in the model) - outside the property's environment", 'request objects are not reused in the model (after the repairs a late reply for a done fragment is dropped before the request is touched, so sync.Pool reuse is unobservable); the correspondence run exercises the real pool', 'sockets are append-only byte sinks in the model (partial writes / EPOLLOUT: property C19)'],
    },
    'C09': {
        'props': 'Props/C09.v',
        'suites': [{'name': 'loop', 'oracles': {'loop': 'o_loop'}, 'trivial_tags': ['plain'], 'vm_sample': 12, 'sigs': ['completed-reply-withheld-at-head-of-queue', 'backend-reply-received-but-not-processed', 'event-loop-stopped']}, {'name': 'pressure', 'oracles': {'loopfinal': 'o_loop'}, 'trivial_tags': ['plain'], 'vm_sample': 3, 'sigs': ['backlog-not-flushed-on-a-readable-and-writable-event', 'completed-reply-withheld-at-head-of-queue', 'event-loop-stopped']}],
        'rule': LOOP_RULE,
        'explanation': 'Theorem C09_no_completed_head: for every history and every open client, at the end of each event the head of the queue is not a completed request - a deliverable reply is written in the event that completed it. One genuine defect repaired (flush gated on the whole queue being done). The wall-clock bound (epoll latency) is runtime behaviour outside the model; the stepper snapshot exposes the done flag of every queue head after each event.',
        'assumptions': ['as C01'],
    },
    'C03': {
        'props': 'Props/C03.v',
        'suites': [{'name': 'loop', 'oracles': {'loop': 'o_loop'}, 'trivial_tags': ['plain'], 'vm_sample': 12, 'sigs': ['reply-does-not-belong-to-the-request-at-its-position', 'backend-received-bytes-that-are-not-requests', 'more-replies-than-requests', 'stray-bytes-after-the-last-reply', 'event-loop-stopped']}, {'name': 'replicas', 'oracles': {'loop': 'o_loop'}, 'trivial_tags': [], 'vm_sample': 4, 'sigs': ['reply-does-not-belong-to-the-request-at-its-position', 'more-replies-than-requests', 'stray-bytes-after-the-last-reply', 'backend-received-bytes-that-are-not-requests', 'event-loop-stopped']}],
        'rule': LOOP_RULE,
        'explanation': 'Theorems over ALL event histories: (1) on every backend connection the node has received the handshake then exactly the recorded requests in order, the awaiting queue is the recorded requests not yet answered, so the i-th reply is given to the fragment whose request was i-th on the wire, and every recorded request is the request of its own fragment (SInv + WInv, inductive over events); (2) a reply changes only the request of the fragment it is matched with and writes only to the owning client (frame theorem); (3) queued requests are owned by the client in whose queue they sit; with C01 the i-th reply a client receives is the reply of its i-th request. Two genuine defects repaired (early error reply with fragments already queued: late reply delivered for the next request; f.Done not checked before redirects). The session oracle checks every reply against the key convention c<client>r<seq> of the fake backends, which exposes any cross-delivery including one caused by sync.Pool reuse.',
        'assumptions': ['as C01', 'request-object recycling (sync.Pool) is not in the model: the model never reuses a request identifier; the correspondence run exercises the real pool and the session oracle would expose a reply written into a recycled object'],
    },
    'C15': {
        'props': 'Props/C15.v',
        'suites': [{'name': 'loop', 'oracles': {'loop': 'o_loop'}, 'trivial_tags': ['plain'], 'vm_sample': 12, 'sigs': ['request-never-answered-and-connection-left-open', 'completed-reply-withheld-at-head-of-queue', 'connection-to-removed-node-left-open', 'event-loop-stopped']}],
        'rule': LOOP_RULE,
        'explanation': 'Theorems over ALL event histories: (1) C15_no_orphan - every fragment that still owes a reply is held by an OPEN backend connection (awaiting a reply or waiting to be written), so a reply, the loss of the connection or the timeout resolves it (NInv, inductive over events, uses the decoder fact that every fragment of a decoded request has a routed per-slot request); (2) C15_close_completes - losing a connection completes in the same step every request with a fragment on it; (3) redirects to unknown / unconnectable nodes complete the request with an error; (4) completed requests are flushed (C09); (5) the pool never hands out a dead connection. Two genuine defects repaired (closeConn on a backend connection only logged: clients waited forever; OnMoved dropped the request on an unknown node). Histories close backends before the write, after the write and between the replies of split requests.',
        'assumptions': ['as C01', 'removal of a node from the topology (ticker closing its pool) is covered by C14 for the pool set; in the event-loop model a removed node is a closed pool (pp_closed) and its connections are closed by EServerClose events', 'liveness is proved as "no orphan + each resolving event completes"; that one of the resolving events eventually happens (the kernel reports the close, the timer fires) is runtime behaviour'],
    },
    'C19': {
        'props': 'Props/C19.v',
        'suites': [{'name': 'buf', 'oracles': {'buf': 'o_buf'}, 'trivial_tags': [], 'vm_sample': 8},
                   {'name': 'pressure', 'oracles': {'loopfinal': 'o_loop'}, 'trivial_tags': ['plain'], 'vm_sample': 4}],
        'rule': 'operation sequences of 5-45 operations on ring.Buffer (initial sizes 0..5000), elastic.RingBuffer (pooled ring) and elastic.Buffer (static threshold 1..8192) through their exported APIs: Write, Writev, WriteByte, Peek(n) incl. n<=0, Discard, Read, ReadByte, Reset; sizes are chosen adaptively from the live state (exact fill, one off, distance to the static/dynamic threshold, 0, small/medium/large up to 9000 bytes) so that wrap-around, growth below and above the 4 KiB grow threshold and ring-to-list spill are hit; data bytes are a running counter so any reordering or corruption is visible. distinct = distinct (kind, parameter, operation list); non-trivial = all (every sequence has writes and drains)',
        'explanation': 'Theorems over ALL operation sequences: ring.Buffer, elastic.RingBuffer and elastic.Buffer conform to an ideal FIFO byte queue - every Peek/Read result is the oldest bytes, every Discard count and every Buffered()/IsEmpty() is exact, for any initial capacity, any recycled-ring capacity and any static threshold (C19_ring_is_a_fifo, C19_elastic_ring_is_a_fifo, C19_elastic_buffer_is_a_fifo; refinement through a view of the circular buffer as empty / linear / wrapped segments; growth capacity proved sufficient incl. the 1.25x loop); and the users conn.write / conn.writev / eventloop.write conserve bytes for every kernel behaviour (C19_conn_conservation: accepted bytes ++ backlog = everything written, in order; the acceptance count of the kernel is an oracle of each operation). One genuine defect repaired (WriteByte on a full ring >= 4 KiB wrote past the slice). The models are tied to the Go buffers by operation sequences on the exported APIs; an independent FIFO oracle is evaluated on the Go results. False alarm fixed while building: the oracle first demanded that elastic.Buffer.Peek(n) return exactly n bytes; it returns whole chunks (>= n), which its callers handle - the oracle and the theorem now state prefix + at-least-n.',
        'assumptions': ['fewer than 2^31 bytes are written in total (small_size; Go int and the math.MaxInt32 substitution in Peek)', 'slices returned by Peek alias the buffer: callers must consume them before the next write (the harness copies them at once; eventloop.write does)', 'ReadFrom / WriteTo (io.Reader / io.Writer variants, unused by the proxy) and the byteslice pool internals are not modelled', 'the connection-level model (Model/ConnOut.v) is tied to connection.go only end to end, by the byte streams of the pressure suite (minimal socket buffers, late readers); EPOLLOUT re-arming (ModReadWrite / ModRead) is not modelled'],
    },
    'C10': {
        'props': 'Props/C10.v',
        'suites': [{'name': 'loop', 'oracles': {'loop': 'o_loop'}, 'trivial_tags': ['plain'], 'vm_sample': 12, 'sigs': ['requests-of-one-client-reordered-on-a-node', 'backend-received-bytes-that-are-not-requests', 'event-loop-stopped']},
                   {'name': 'pressure', 'oracles': {'loopfinal': 'o_loop'}, 'trivial_tags': ['plain'], 'vm_sample': 3, 'sigs': ['requests-of-one-client-reordered-on-a-node', 'backend-received-bytes-that-are-not-requests', 'reply-does-not-belong-to-the-request-at-its-position', 'event-loop-stopped']}],
        'rule': LOOP_RULE + ' | pressure: histories with minimal socket send buffers in which backends and clients read late and in small pieces (requests of 1.5-9 KB, replies of 2.5-8 KB), so that writes are partial and later fragments are queued behind a backlog in the outbound buffer; compared with the model at quiescence',
        'explanation': 'Theorem C10_per_connection_order over ALL event histories: on every backend connection the request numbers of one client\'s fragments (wire order, then pending order) never decrease; redirected fragments excluded, fragments of one request may permute (OInv, inductive over events; uses the wire identity of C03 and a permutation argument for the map-order reordering inside one request). The oracle checks the order on what the fake nodes actually received, keyed by c<client>r<seq>, also under backpressure (partial writes, outbound backlog in the ring-then-list buffer).',
        'assumptions': ['as C01', 'one connection per node (max_active = 1 in all layouts): with more connections Pool.Get rotates and the property is not claimed', 'the order of bytes inside the outbound buffer under partial writes is C19 (buffers are FIFO); the pressure suite ties the two together on the real sockets'],
    },
    'C13': {
        'props': 'Props/C13.v',
        'suites': [{'name': 'loop', 'oracles': {'loop': 'o_loop'}, 'trivial_tags': ['plain'], 'vm_sample': 12, 'sigs': ['ask-redirect-without-asking', 'redirect-to-a-known-node-refused', 'redirect-error-leaked-to-client', 'backend-reply-received-but-not-processed', 'request-never-answered-and-connection-left-open', 'event-loop-stopped']}],
        'rule': LOOP_RULE,
        'explanation': "Theorems: a MOVED/ASK reply for an open fragment naming a reachable node re-queues the fragment at the tail of that node's connection without touching any client or request (C13_redirect_requeues); for ASK the ownerless ASKING command is queued immediately before it and the write round sends ASKING then the request (C13_redirect_queue, C13_asking_then_request; witness C13_ask_witness: the +OK of ASKING reaches no client); ordering/exactly-once by C01's theorem; every step is a total function. Two genuine defects repaired: the request re-sent after -ASK was not preceded by ASKING (first proved as C13_ask_refuted and kept as a known finding, then repaired in ae04d4f: model, theorems and oracle now state the positive property); late redirects for completed requests used to panic.",
        'assumptions': ["redirect chains are finite when the cluster's redirects are consistent (no hop bound exists: A->B->A loops forever) - assumption consistent_redirects", 'as C01'],
    },
    'C16': {
        'props': 'Props/C16.v',
        'suites': [{'name': 'loop', 'oracles': {'loop': 'o_loop'}, 'trivial_tags': ['plain'], 'vm_sample': 12, 'sigs': ['request-not-completed-by-the-timeout-scan', 'reply-does-not-belong-to-the-request-at-its-position', 'request-never-answered-and-connection-left-open', 'more-replies-than-requests', 'event-loop-stopped']}],
        'rule': LOOP_RULE,
        'explanation': 'Theorems: after a timeout scan every expired fragment is done and every request that had an un-done expired fragment is completed with the timeout error as its reply (C16_timeout_completes); delivered once in position (C01 invariant); late replies are dropped without touching anything; the queue is not blocked (C09 clause holds after the scan). One genuine defect repaired (the request was never completed: error out of order, queue blocked forever).',
        'assumptions': ['real time: the model has the scan as an event in which all in-flight fragments have expired; equal deadlines (LLRB replace-on-equal) and the fact that Polling runs the scan only after an epoll round with events are outside the model', 'as C01'],
    },
}

# the checks of the codec properties also run the event-loop histories: what the codecs decide reaches
# clients and nodes only through the loop (a crash, a reply in the wrong position or a fragment on the
# wrong node shows there)
for _pid in ('C06', 'C07', 'C11', 'C17'):
    PROPS[_pid]['rule'] += ' | loop suite: ' + LOOP_RULE
PROPS['C08']['rule'] += ' | pressure suite: as C10; includes single reads full of locally answered requests from a client that is not reading (every request of the read must be served although the replies no longer fit the socket)'
PROPS['C03']['rule'] += ' | replicas suite: as C04 (connections to replicas open with AUTH and READONLY: a two-step handshake whose answers may arrive in separate reads while requests are already in flight)'
PROPS['C01']['rule'] += ' | pressure suite: as C10 (replies larger than the buffers to clients that read late; locally answered requests behind a backlog)'
PROPS['C12']['rule'] += ' | loop suite: ' + LOOP_RULE
PROPS['C09']['rule'] += ' | pressure suite: as C10; includes events that are readable and writable at once, delivered through the dispatcher of the reactor (eventloop.callback), to a client with replies piled up that has just emptied its socket'
PROPS['C02']['rule'] += ' | loop suite: ' + LOOP_RULE + ' | pressure suite: as C10 (replies and requests larger than the socket buffers, peers that read late and in pieces)'

NOT_YET = {}

MANIFEST_TEXT = {
    'C01': {
        'text': 'Coq theorem over ALL event histories of the event-loop model (inductive invariant): client byte stream = replies of requests 0..k-1 in order. Model replayed against the production loop on recorded histories; session oracle per reply position.',
        'note': 'Trusted: Coq kernel, extraction, Go harness + stepper hooks (core/verif_loop.go), the transcription in Model/Proxy.v (validated on every run against the production loop). Environment: well-formed backends.',
        'technique': 'Coq proof (inductive invariant over event-loop steps) + differential correspondence through the real event loop',
    },
    'C09': {
        'text': 'Coq theorem over ALL event histories: no open client has a completed request at the head of its queue at the end of an event. Snapshot of the real loop checked after every event.',
        'note': 'Trusted: Coq kernel, extraction, Go harness + stepper hooks (core/verif_loop.go), the transcription in Model/Proxy.v (validated on every run against the production loop). Environment: well-formed backends.',
        'technique': 'Coq proof (inductive invariant) + differential correspondence with queue snapshots',
    },
    'C03': {
        'text': 'Coq theorems over ALL event histories: positional reply correlation and request identity on every backend connection (two inductive invariants), frame theorem for replies, queue ownership; with C01. Session oracle with per-client/per-request key convention through the real loop and the real sync.Pool.',
        'note': 'Trusted: Coq kernel, extraction, Go harness + stepper hooks (core/verif_loop.go), the transcription in Model/Proxy.v (validated on every run against the production loop). sync.Pool reuse is outside the model (covered by the correspondence run only).',
        'technique': 'Coq proof (inductive invariants over event-loop steps + frame theorem) + differential correspondence through the real event loop',
    },
    'C15': {
        'text': 'Coq theorems over ALL event histories: no fragment that owes a reply is held by a closed connection (inductive invariant), a connection loss completes every affected request in the same step, redirects to unknown nodes complete with an error, pool never returns a dead connection. Histories with backend closes at every point through the real loop.',
        'note': 'Trusted: Coq kernel, extraction, Go harness + stepper hooks (core/verif_loop.go), the transcription in Model/Proxy.v (validated on every run against the production loop). Eventual occurrence of close/timer events is runtime behaviour.',
        'technique': 'Coq proof (inductive invariant + step theorems) + differential correspondence through the real event loop',
    },
    'C19': {
        'text': 'Coq refinement proofs: ring.Buffer, elastic.RingBuffer and elastic.Buffer conform to an ideal FIFO byte queue for every operation sequence (exact results, exact lengths; Peek of the mixed buffer: oldest bytes, at least n). Differential run of generated operation sequences on the exported Go APIs with controlled pool contents, plus an independent FIFO oracle.',
        'note': 'Trusted: Coq kernel, extraction, Go harness + hooks (elastic/verif_hooks.go, pool/ringbuffer/verif_hooks.go), transcription in Model/Buffers.v (validated on every run). Bound: < 2^31 bytes.',
        'technique': 'Coq proof (refinement to a FIFO byte queue) + differential correspondence on the exported buffer APIs',
    },
    'C10': {
        'text': 'Coq theorem over ALL event histories: per backend connection, one client\'s fragments are written and queued in request order (inductive invariant; permutation argument for fragments of one request). Histories through the real loop incl. backpressure (partial writes) with an order oracle on what the nodes received.',
        'note': 'Trusted: Coq kernel, extraction, Go harness + stepper hooks, transcription in Model/Proxy.v (validated on every run). Claimed for one connection per node only.',
        'technique': 'Coq proof (inductive invariant over event-loop steps) + differential correspondence through the real event loop, also under backpressure',
    },
    'C13': {
        'text': 'Coq theorems on the redirect step (re-queue at tail, ASKING immediately before a request re-sent after -ASK, nothing reaches the client) + C01 invariant. MOVED/ASK/unknown-node histories through the real loop; the session oracle demands ASKING before every re-sent ASK request.',
        'note': 'Trusted: Coq kernel, extraction, Go harness + stepper hooks (core/verif_loop.go), the transcription in Model/Proxy.v (validated on every run against the production loop). Environment: well-formed backends.',
        'technique': 'Coq proof (step lemmas + inductive invariant) + differential correspondence through the real event loop',
    },
    'C16': {
        'text': 'Coq theorems on the timeout scan (all expired requests completed with the timeout error, late replies dropped, queue not blocked) + C01 invariant for position. Real 15 ms timeouts with real sleeps through the production loop.',
        'note': 'Trusted: Coq kernel, extraction, Go harness + stepper hooks (core/verif_loop.go), the transcription in Model/Proxy.v (validated on every run against the production loop). Environment: well-formed backends.',
        'technique': 'Coq proof (induction over the expiry list + invariant) + differential correspondence with real timers',
    },

    'C14': {
        'text': 'Coq theorems over the model of loopClusterNodes/parse/isChanged/setReplicaset/ticker: total loop for all histories, unusable replies are no-ops that never block later updates, node filter rules, '
                'slot range, slot-table and replica-set characterisation, pools = adopted servers. Tied to the Go code by generated texts through ClusterNodes.parse and histories through the real refresh goroutine and ticker.',
        'note': 'Trusted: Coq kernel, extraction, harness + cluster hooks (INFO oracle stub). Timing (seconds), the goroutine data race and fingerprint-string injectivity are not proved.',
        'technique': 'Coq proof (fold over reply histories, characterisation lemmas) + differential correspondence through the real goroutine and ticker',
    },
    'C18': {
        'text': 'Coq theorems: admitted set after any version history = last version (additions and removals); admission on the address part; reload event filter. Tied to parseAuthIp/Validate/OnCOpened '
                'by loading real YAML files and connecting through the stepper, and to the watcher by real edits (in place, rename-over, remove+create).',
        'note': 'Trusted: Coq kernel, extraction, harness + authip hooks. inotify, YAML and the goroutine data race on the enable flag are not modelled.',
        'technique': 'Coq proof (fold over version histories) + differential correspondence incl. the real file watcher',
    },
    'C04': {
        'text': 'Coq theorems: route returns the master or a live replica of the owning set for all sets/types/settings/random values; role rules; data theorems over the command table '
                'regenerated from source; handshake bytes. Tied to listenServer.route and OnSOpened by differential run with recorded rand.Intn values.',
        'note': 'Trusted: Coq kernel, translator, extraction, harness + hook VerifRoute; the read-only command list in Spec/RouteSpec.v is a reviewed literal.',
        'technique': 'Coq proof + vm_compute over the regenerated command table + differential correspondence with recorded randomness',
    },
    'C20': {
        'text': 'Coq theorems: for reads the chosen node is the k-th live replica, so every live replica is chosen for some k < |live| and the map is injective; writes go to the master for every k. '
                'Differential run with recorded rand.Intn; the spec oracle demands the k-th healthy replica.',
        'note': 'Trusted as C04; statistical uniformity of math/rand is not proved.',
        'technique': 'Coq proof (support and injectivity of the choice) + differential correspondence with recorded randomness',
    },
    'C07': {
        'text': 'Coq theorems: for any slot function, key list, store and any permutation of the fragment replies, the merged MGET/DEL/MSET reply is as specified, nothing is '
                'delivered early and the result is order-independent. Tied to the Go merge code by running real requests through the production event loop with all release orders.',
        'note': 'Trusted: Coq kernel, translator, extraction, harness + stepper hooks, transcription in Model/ServerCodec.v. Environment assumption: well-formed backend replies.',
        'technique': 'Coq proof (invariant over the set of answered fragments, induction over any permutation) + differential correspondence through the real event loop',
    },
    'C11': {
        'text': 'Coq theorems: any error reply on any fragment at any time completes a split request with an error, exactly once; single-key errors pass verbatim; no crash or stall in the model. '
                'Error injection on every subset position through the production loop; two defects repaired.',
        'note': 'Trusted as C07.',
        'technique': 'Coq proof (case analysis of the merge step + discard-after-completion lemma) + differential correspondence with error injection',
    },
    'C02': {
        'text': 'Coq theorems: request fragment = client bytes with lower-cased command name; every RESP2 value framed exactly (induction over nested arrays); verbatim hand-on within the limit; '
                'handshake swallowed exactly. Differential runs of both codecs and of round trips through the real loop.',
        'note': 'Trusted as C07. Partial writes to a slow reader are decided with the buffer model (C19); kernel delivery is assumed.',
        'technique': 'Coq proof (structural induction on RESP2 values, parser/encoder round trip) + differential correspondence',
    },
    'C06': {
        'text': 'Coq theorems: the splitter model yields, for any slot function and any key list, exactly one canonical fragment per distinct slot with exactly '
                'that slot\'s items in order (plus the partition corollary), and the decoder builds these fragments for every MGET/DEL/MSET stream. '
                'Model tied to CRespCodec.Decode by differential run; the split spec is evaluated on the Go fragments.',
        'note': 'Trusted: Coq kernel, translator, extraction, Go harness + hook VerifDecodeClient, the transcription in Model/ClientCodec.v. Lengths < 10^18.',
        'technique': 'Coq proof (induction over the grouping fold; RESP round-trip lemmas) + differential correspondence',
    },
    'C08': {
        'text': 'Coq theorems: for every byte stream and every segmentation the read loop extracts what extraction from the concatenation extracts; for '
                'well-formed pipelines exactly the encoded requests; proper prefixes wait. The production read path (real ring buffer, real cread loop on a '
                'socketpair) is run against the model.',
        'note': 'Trusted as C06 plus the stepper hook (core/verif_loop.go). The inbound buffer is an abstract byte list in the theorem (C19 covers the ring buffer).',
        'technique': 'Coq proof (parser monotonicity under buffer extension; fuelled read loop) + differential correspondence through the real event loop',
    },
    'C12': {
        'text': 'Coq theorems (decoder side): no input makes the decoder return the nil message or diverge; every fragment built from any accepted input is '
                'in the strict Redis request grammar; accepted inputs are canonical. Hostile mutational stream run through the Go decoder and read loop, with '
                'the strict recogniser (proved complete for the grammar) applied to every forwarded fragment.',
        'note': 'Trusted as C06. Memory exhaustion by unbounded buffering and fd exhaustion are outside the model.',
        'technique': 'Coq proof (decoder soundness/completeness against the canonical encoder) + differential correspondence on a mutational corpus',
    },
    'C17': {
        'text': 'Coq theorems: data theorems over the tables translated from the source and the documented table on every run; classification theorem '
                '(own-size limit, case-insensitive name, arity rule, exact consumption whatever follows). Tied to Transform2Type/checkArgs/Decode differentially.',
        'note': 'Trusted as C06 plus the markdown reader of the translator.',
        'technique': 'Coq proof + vm_compute over finite tables regenerated from source + differential correspondence',
    },
    'C05': {
        'text': 'Theorem (Coq, closed under the global context): for every byte string the model of hashkit.Hash equals the Redis Cluster key-slot '
                'function (bit-serial CRC16/XMODEM of the hash tag, mod 16384); the 256-entry table literal is re-translated from crc16.go on every '
                'run and re-proved to be the XMODEM table. The model is tied to the Go code by a differential run (exhaustive brace arrangements, '
                'byte sweeps, random binary keys) and the spec itself is evaluated on hashkit.Hash outputs to produce failing inputs.',
        'note': 'Trusted: Coq kernel, translator tools/gen, ExtrOcamlBasic extraction + OCaml driver, Go harness, the transcription of strings.Index / '
                'uint32 shifts in Model/Crc16.v (validated by the differential run), the KeySlot spec (pinned to published vectors).',
        'technique': 'Coq proof by induction + finite vm_compute sweep of the table; translator + differential correspondence',
        'design_ref': 'DESIGN.md section 3, C05',
    },
}
