"""Per-property configuration of bin/check: which Props file holds the theorems, which
implementation suites validate the model components those theorems depend on, and which
extracted Spec predicates (oracles) are evaluated on the implementation's own outputs."""

TRUSTED_BASE = [
    'Coq 8.16.1 kernel (coqc; vm_compute used for finite sweeps and witnesses; native_compute not used)',
    'no axioms declared by the development; Print Assumptions under every property theorem is expected to be "Closed under the global context"',
    'translator /verif/tools/gen (go/ast): copies tables, constants and strings from /repo into coq/Gen/Generated.v on every run',
    'extraction: ExtrOcamlBasic only (bool, option, unit, list, prod, sumbool, sumor as OCaml types; andb/orb inlined); N, Z, positive, nat stay Coq inductives; OCaml 4.13.1; driver ocaml/modelrun.ml (text <-> sx only)',
    'correspondence harness /verif/harness (Go, -tags verif) linked against /repo working tree; strength bounded by the generators (input distribution printed in this file)',
    'a sample of every run\'s cases is re-evaluated inside Coq with vm_compute and compared with the extracted model',
]

PROPS = {
    'C05': {
        'props': 'Props/C05.v',
        'suites': [
            {'name': 'c05', 'oracles': {'hash': 'o_c05'}, 'trivial_tags': ['nobrace'], 'vm_sample': 60},
        ],
        'rule': 'exhaustive strings over {"{","}","a"} up to length 7 (quick) / 9 (thorough), every 1-byte key, every byte at both '
                'positions of a 2-byte key, random binary keys (length 0-300, brace density 0-50%); distinct = distinct key; '
                'non-trivial = key contains at least one brace (tag other than nobrace) or comes from the byte sweeps',
        'explanation': 'Theorem C05_full: for all byte strings, model Hash = spec key_slot (bit-serial CRC16/XMODEM of the hash tag, mod 16384); '
                       'C05_table re-proved against the table literal copied from crc16.go on this run; the model is tied to hashkit.Hash by '
                       'differential run and the spec is evaluated directly on hashkit.Hash outputs.',
        'assumptions': ['keys are byte strings (each element < 256)', 'Go strings.Index / uint32 shift semantics as transcribed in Model/Crc16.v'],
    },
}

NOT_YET = {}

MANIFEST_TEXT = {
    'C05': {
        'text': 'Theorem (Coq, closed under the global context): for every byte string the model of hashkit.Hash equals the Redis Cluster key-slot '
                'function (bit-serial CRC16/XMODEM of the hash tag, mod 16384); the 256-entry table literal is re-translated from crc16.go on every '
                'run and re-proved to be the XMODEM table. The model is tied to the Go code by a differential run (exhaustive brace arrangements, '
                'byte sweeps, random binary keys) and the spec itself is evaluated on hashkit.Hash outputs to produce failing inputs.',
        'note': 'Trusted: Coq kernel, translator tools/gen, ExtrOcamlBasic extraction + OCaml driver, Go harness, the transcription of strings.Index / '
                'uint32 shifts in Model/Crc16.v (validated by the differential run), the KeySlot spec (pinned to published vectors).',
        'technique': 'Coq proof by induction + finite vm_compute sweep of the table; translator + differential correspondence',
        'design_ref': 'DESIGN.md section 3, C05',
    },
}
