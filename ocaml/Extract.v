(* Extraction: ExtrOcamlBasic only (bool, option, unit, list, prod, sumbool, sumor, andb, orb);
   N, Z, positive, nat stay Coq's inductive datatypes.  Run from /verif/ocaml:
     coqc -Q ../coq RcProxy Extract.v   ->  model.ml model.mli *)
From Coq Require Import Extraction ExtrOcamlBasic.
From RcProxy Require Import Base.Bytes Base.Sx Extract.Entry.
Extraction Language OCaml.
Extraction "model.ml" dispatch Z.add Z.mul Z.opp Z.div_eucl.
