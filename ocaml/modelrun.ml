(* modelrun: reads "<entry> <sx>" lines on stdin, prints one sx per line on stdout.
   Only glue: text <-> Model.sx conversion.  All logic is in the extracted Model. *)
module M = Model

let rec pos_of_int (n : int) : M.positive =
  if n = 1 then M.XH
  else if n land 1 = 0 then M.XO (pos_of_int (n lsr 1))
  else M.XI (pos_of_int (n lsr 1))

let n_of_int (n : int) : M.n = if n = 0 then M.N0 else M.Npos (pos_of_int n)

(* decimal string -> Z without going through OCaml int (values may exceed 2^62) *)
let z_add a b = M.Z.add a b
let z_mul a b = M.Z.mul a b
let z_of_small (n : int) : M.z = if n = 0 then M.Z0 else M.Zpos (pos_of_int n)
let z_of_string (s : string) : M.z =
  let neg = String.length s > 0 && s.[0] = '-' in
  let start = if neg then 1 else 0 in
  let ten = z_of_small 10 in
  let acc = ref M.Z0 in
  for i = start to String.length s - 1 do
    let d = Char.code s.[i] - 48 in
    if d < 0 || d > 9 then failwith ("bad number: " ^ s);
    acc := z_add (z_mul !acc ten) (z_of_small d)
  done;
  if neg then M.Z.opp !acc else !acc

let rec pos_to_string (p : M.positive) : string =
  (* repeated division by 10 on positives via M.Z.div_eucl *)
  let z = M.Zpos p in
  let buf = Buffer.create 20 in
  let rec go z acc =
    match z with
    | M.Z0 -> acc
    | _ ->
      let (q, r) = M.Z.div_eucl z (z_of_small 10) in
      let d = (match r with M.Z0 -> 0 | M.Zpos p -> int_of_pos p | M.Zneg _ -> 0) in
      go q (Char.chr (48 + d) :: acc)
  in
  List.iter (Buffer.add_char buf) (go z []);
  Buffer.contents buf
and int_of_pos (p : M.positive) : int =
  match p with M.XH -> 1 | M.XO q -> 2 * int_of_pos q | M.XI q -> 2 * int_of_pos q + 1

let z_to_string (z : M.z) : string =
  match z with
  | M.Z0 -> "0"
  | M.Zpos p -> pos_to_string p
  | M.Zneg p -> "-" ^ pos_to_string p

let int_of_n (n : M.n) : int = match n with M.N0 -> 0 | M.Npos p -> int_of_pos p

let hexval c =
  match c with
  | '0'..'9' -> Char.code c - 48
  | 'a'..'f' -> Char.code c - 87
  | 'A'..'F' -> Char.code c - 55
  | _ -> failwith "bad hex"

(* precomputed byte values as Coq N *)
let byte_tab : M.n array = Array.init 256 n_of_int

let bytes_of_hex (s : string) (from : int) (upto : int) : M.n list =
  let rec go i acc =
    if i < from then acc
    else go (i - 2) (byte_tab.(hexval s.[i - 1] * 16 + hexval s.[i]) :: acc)
  in
  if (upto - from) land 1 <> 0 then failwith "odd hex";
  go (upto - 1) []

(* parser over a string with an index *)
let parse_sx (s : string) (start : int) : M.sx * int =
  let len = String.length s in
  let rec skip i = if i < len && s.[i] = ' ' then skip (i + 1) else i in
  let rec value i =
    let i = skip i in
    if i >= len then failwith "unexpected end";
    match s.[i] with
    | '(' ->
      let rec items i acc =
        let i = skip i in
        if i >= len then failwith "unclosed list";
        if s.[i] = ')' then (M.SL (List.rev acc), i + 1)
        else let (v, j) = value i in items j (v :: acc)
      in
      items (i + 1) []
    | 'x' ->
      let j = ref (i + 1) in
      while !j < len && s.[!j] <> ' ' && s.[!j] <> ')' do incr j done;
      (M.SB (bytes_of_hex s (i + 1) !j), !j)
    | _ ->
      let j = ref i in
      while !j < len && s.[!j] <> ' ' && s.[!j] <> ')' do incr j done;
      (M.SN (z_of_string (String.sub s i (!j - i))), !j)
  in
  value start

let hexdigits = "0123456789abcdef"
let rec print_sx (b : Buffer.t) (v : M.sx) : unit =
  match v with
  | M.SN z -> Buffer.add_string b (z_to_string z)
  | M.SB l ->
    Buffer.add_char b 'x';
    List.iter (fun n -> let k = int_of_n n in
                Buffer.add_char b hexdigits.[(k lsr 4) land 15];
                Buffer.add_char b hexdigits.[k land 15]) l
  | M.SL l ->
    Buffer.add_char b '(';
    List.iteri (fun i x -> if i > 0 then Buffer.add_char b ' '; print_sx b x) l;
    Buffer.add_char b ')'

let name_of_string (s : string) : M.n list =
  List.init (String.length s) (fun i -> byte_tab.(Char.code s.[i]))

let () =
  let out = Buffer.create 65536 in
  (try
     while true do
       let line = input_line stdin in
       if String.length line > 0 && line.[0] <> '#' then begin
         let sp = (try String.index line ' ' with Not_found -> String.length line) in
         let name = String.sub line 0 sp in
         let (arg, _) = if sp >= String.length line then (M.SL [], sp) else parse_sx line sp in
         let res = M.dispatch (name_of_string name) arg in
         print_sx out res;
         Buffer.add_char out '\n';
         if Buffer.length out > 60000 then begin
           print_string (Buffer.contents out); Buffer.clear out
         end
       end
     done
   with End_of_file -> ());
  print_string (Buffer.contents out)
